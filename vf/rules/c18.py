"""C18 -- children created from values are indented by the documented rule (structural clauses)."""
from __future__ import annotations

import ast
from typing import Any, Optional

from ..fieldmodel import build_tree_classes, single_return_expr
from ..model import AnalysisError, DescriptorDecl, FuncInfo, Program, dotted, norm, self_attr, stmts_no_doc, walk_no_nested
from ..report import RuleContext
from . import gen

EXPLANATION = (
    'Static analysis (AST data flow / per-class agreement). Decides: IND-FLOW (a meta item created by mapping assignment '
    'receives indent=self._get_indent(); _get_indent returns the first existing sibling\'s indent, else the default getter; the '
    'default is the parent\'s own indent followed by indent_by, or indent_by alone for a parent without an indent), IND-CLASS '
    '(for every class: it has an _indent field iff it passes raw_indent to repeated_meta_item_property and uses '
    'optional_indented_string_property for its comments, iff from_value indents meta by indent + indent_by and comments by '
    'indent), IND-COMMENT (optional_indented_string_property passes the owner\'s indent only on creation and only assigns '
    '.value on update), IND-NOWRITE (no library code assigns .indent of an existing node except the token\'s own setter). '
    'It does NOT decide concrete strings.')


def _kw_text(fn: FuncInfo, call: ast.Call, kw: str) -> list[str]:
    """the text of keyword `kw` of a call, a local that is assigned exactly once replaced by what it was assigned"""
    out = []
    for k in call.keywords:
        if k.arg == kw:
            v = k.value
            if isinstance(v, ast.Name):
                defs = [a.value for a in walk_no_nested(fn.node) if isinstance(a, ast.Assign) and len(a.targets) == 1
                        and isinstance(a.targets[0], ast.Name) and a.targets[0].id == v.id]
                if len(defs) == 1:
                    v = defs[0]
            out.append(norm(v))
    return out


def rule_ind_flow(ctx: RuleContext, p: Program, rid: str) -> None:
    ctx.rule(rid, 'mapping assignment creates MetaItem.from_value(key, value, indent=self._get_indent()); _get_indent = first '
                  'sibling\'s indent if any else default getter; default = parent indent + indent_by (or indent_by alone)')
    w = p.cls('RepeatedMetaItemWrapper', 'models.meta_item_internal')
    st = p.method(w, '__setitem__', inherited=False)
    creates = [c for c in walk_no_nested(st.node) if isinstance(c, ast.Call) and norm(c.func).endswith('MetaItem.from_value')]
    ok = len(creates) == 1 and _kw_text(st, creates[0], 'indent') == ['self._get_indent()']
    ctx.check(ok, rid, 'models.meta_item_internal:RepeatedMetaItemWrapper.__setitem__', norm(creates[0])[:120] if creates else 'no creation',
              'a meta item created by `meta[key] = value` is not given indent=self._get_indent()', st.where,
              note='indent=self._get_indent()')
    # ... and so does every other method of the mapping views that creates items from plain values (an update() override, setdefault)
    for vw in [k for k in p.module('models.meta_item_internal').classes]:
        for fn_ in [f for f in vw.attrs.values() if isinstance(f, FuncInfo)]:
            for c_ in walk_no_nested(fn_.node):
                if isinstance(c_, ast.Call) and (norm(c_.func).endswith('MetaItem.from_value') or norm(c_.func) == 'from_mapping') and fn_ is not st:
                    ind = _kw_text(fn_, c_, 'indent')
                    ctx.check(ind == ['self._get_indent()'], rid, f'models.meta_item_internal:{vw.name}.{fn_.name}', norm(c_)[:100],
                              f'{vw.name}.{fn_.name} creates meta items with `{norm(c_)[:90]}`: indent is {ind or "left to a default"}, not self._get_indent() '
                              f'-- new items ignore the indentation their existing siblings share', fn_.where, note='indent=self._get_indent()')
    # the update path must not touch indentation: only `item.value = value`
    upd = [a for a in walk_no_nested(st.node) if isinstance(a, ast.Assign) and isinstance(a.targets[0], ast.Attribute)]
    ctx.check(all(a.targets[0].attr == 'value' for a in upd), rid,  # type: ignore[union-attr]
              'models.meta_item_internal:RepeatedMetaItemWrapper.__setitem__: update path', f'{[norm(a) for a in upd]}',
              'updating an existing key assigns something other than .value', st.where, note=f'{[norm(a) for a in upd]}')
    gi = p.method(w, '_get_indent', inherited=False)
    body = stmts_no_doc(gi.node.body)
    first = [a for a in body if isinstance(a, ast.Assign) and isinstance(a.value, ast.Call) and norm(a.value.func) == 'next']
    ok = False
    if first:
        fv = norm(first[0].targets[0])
        src = norm(first[0].value.args[0]) if first[0].value.args else ''  # type: ignore[union-attr]
        dflt = len(first[0].value.args) > 1 and norm(first[0].value.args[1]) == 'None'  # type: ignore[union-attr]
        iterates_items = src in ('super().__iter__()', 'iter(self)', 'iter(super())', 'iter(super().__iter__())')
        from ..walker import Walker
        got: set[tuple[Any, str]] = set()

        def transfer(s: Any, ev: tuple) -> list:
            if ev[0] == 'assume':
                t, truth = ev[1], ev[2]
                if isinstance(t, ast.Compare) and norm(t.left) == fv and isinstance(t.comparators[0], ast.Constant) \
                        and t.comparators[0].value is None:
                    isnone = truth if isinstance(t.ops[0], ast.Is) else not truth
                    return [isnone] if s is None or s == isnone else []
                if norm(t) == fv:
                    return [not truth] if s is None or s == (not truth) else []
            if ev[0] == 'return':
                got.add((s, norm(ev[1].value)))
            return [s]

        Walker(transfer).run(body, [None])
        ok = iterates_items and dflt and got == {(False, f'{fv}.indent'), (True, 'self._default_indent_getter()')}
    ctx.check(ok, rid, 'models.meta_item_internal:RepeatedMetaItemWrapper._get_indent', 'first sibling else default',
              '_get_indent does not return the first existing meta item\'s indent, falling back to the default getter only when '
              'there is none', gi.where, note='next(iter(items), None) -> its .indent, else default getter')
    gd = p.func('models.meta_item_internal', '_get_default_indent')
    inst, by, ip = gd.params[0], gd.params[1], gd.params[2]
    atoms = {f'{ip}.__get__({inst}).value': ('P',), f'{by}.__get__({inst})': ('B',)}

    def sym(e: ast.AST, env: dict) -> tuple:
        t = norm(e)
        if t in atoms:
            return atoms[t]
        if isinstance(e, ast.Constant) and e.value == '':
            return ()
        if isinstance(e, ast.Name) and e.id in env:
            return env[e.id]
        if isinstance(e, ast.BinOp) and isinstance(e.op, ast.Add):
            return sym(e.left, env) + sym(e.right, env)
        if isinstance(e, ast.IfExp):
            return sym(e.body, env) if cond(e.test, env) else sym(e.orelse, env)
        if isinstance(e, ast.JoinedStr):
            out: tuple = ()
            for v in e.values:
                out += sym(v.value, env) if isinstance(v, ast.FormattedValue) else ((('lit', v.value),) if v.value else ())
            return out
        raise AnalysisError(f'IND-FLOW: expression {t[:60]} in _get_default_indent not modelled')

    def cond(t: ast.AST, env: dict) -> bool:
        tt = norm(t)
        if tt in (ip, f'{ip} is not None'):
            return env['__has__']
        if tt in (f'not {ip}', f'{ip} is None'):
            return not env['__has__']
        raise AnalysisError(f'IND-FLOW: condition {tt[:60]} in _get_default_indent not modelled')

    class _Ret(Exception):
        def __init__(self, v: tuple) -> None:
            self.v = v

    def run(stmts: list, env: dict) -> None:
        for st in stmts:
            if isinstance(st, ast.Return):
                raise _Ret(sym(st.value, env))
            if isinstance(st, ast.Assign) and isinstance(st.targets[0], ast.Name):
                env[st.targets[0].id] = sym(st.value, env)
            elif isinstance(st, ast.AugAssign) and isinstance(st.op, ast.Add) and isinstance(st.target, ast.Name):
                env[st.target.id] = env[st.target.id] + sym(st.value, env)
            elif isinstance(st, ast.If):
                run(st.body if cond(st.test, env) else st.orelse, env)
            elif isinstance(st, ast.Expr) and isinstance(st.value, ast.Constant):
                continue
            else:
                raise AnalysisError(f'IND-FLOW: statement {norm(st)[:60]} in _get_default_indent not modelled')

    res = {}
    for has in (True, False):
        try:
            run(gd.node.body, {'__has__': has})
            res[has] = None
        except _Ret as r:
            res[has] = r.v
    ok = res.get(True) == ('P', 'B') and res.get(False) == ('B',)
    ctx.check(ok, rid, 'models.meta_item_internal:_get_default_indent', f'with parent indent: {res.get(True)}; without: {res.get(False)}',
              f'default indent evaluates to {res.get(True)} with a parent indent (P) and {res.get(False)} without; the rule is parent indent '
              f'followed by indent_by (P, B), or indent_by alone (B)', gd.where, note='(P, B) | (B)')
    # the property wires the getter with its own arguments: the instance is the one the wrapper is being built for -- a parameter of the
    # enclosing factory (lambda / nested def / method called per instance) -- never state kept on the descriptor, which is one object per
    # CLASS and shared by every model of that class
    pr = p.cls('repeated_meta_item_property', 'models.meta_item_internal')
    init = p.method(pr, '__init__', inherited=False)
    parents: dict[int, ast.AST] = {}
    for nd in ast.walk(pr.node):
        for ch in ast.iter_child_nodes(nd):
            parents[id(ch)] = nd
    calls = [c for c in ast.walk(pr.node) if isinstance(c, ast.Call) and norm(c.func) == '_get_default_indent']
    init_params = set(init.params[1:])
    # attributes of self that __init__ fills from its parameters
    self_from_param = {self_attr(a.targets[0]): a.value.id for a in walk_no_nested(init.node) if isinstance(a, ast.Assign) and len(a.targets) == 1
                       and self_attr(a.targets[0]) and isinstance(a.value, ast.Name) and a.value.id in init_params}
    problems_w: list[str] = []
    for c in calls:
        if len(c.args) < 3:
            problems_w.append(f'`{norm(c)[:80]}` does not pass (instance, indent_by_field, indent_property)')
            continue
        a0 = c.args[0]
        enclosing_params: set[str] = set()
        cur: Optional[ast.AST] = c
        while cur is not None and cur is not pr.node:
            cur = parents.get(id(cur))
            if isinstance(cur, (ast.FunctionDef, ast.Lambda)):
                aa = cur.args
                enclosing_params |= {x.arg for x in [*aa.posonlyargs, *aa.args, *aa.kwonlyargs]}
        enclosing_params.discard('self')
        if not (isinstance(a0, ast.Name) and a0.id in enclosing_params and a0.id not in init_params):
            problems_w.append(f'`{norm(c)[:90]}`: the model whose indentation is the default is `{norm(a0)}`, not the instance the wrapper is built for '
                              f'(a parameter of the per-instance factory); state kept on the descriptor is shared by every model of the class, so one '
                              f'model\'s new meta items take another model\'s indentation')
        for k, a in enumerate(c.args[1:3]):
            ok_a = (isinstance(a, ast.Name) and a.id in init_params) or (self_attr(a) in self_from_param)
            if not ok_a:
                problems_w.append(f'`{norm(c)[:80]}`: argument {k + 2} is `{norm(a)}`, not the descriptor\'s own indent_by field / indent property')
        got_names = [a.id if isinstance(a, ast.Name) else self_from_param.get(self_attr(a) or '', '?') for a in c.args[1:3]]
        if got_names != init.params[2:4] and not problems_w:
            problems_w.append(f'`{norm(c)[:80]}` passes {got_names}, expected {init.params[2:4]}')
    ok = len(calls) >= 1 and not problems_w
    ctx.check(ok, rid, 'models.meta_item_internal:repeated_meta_item_property', norm(calls[0])[:100] if calls else 'no call of _get_default_indent',
              '; '.join(problems_w) or 'the default indent getter is not wired to (instance, indent_by_field, indent_property)', init.where,
              note=norm(calls[0])[:100] if calls else '')


def rule_ind_class(ctx: RuleContext, p: Program, rid: str) -> None:
    ctx.rule(rid, 'per class: has an _indent field <=> meta property receives raw_indent and comments use '
                  'optional_indented_string_property(<raw comment>, BlockComment, raw_indent) <=> from_value indents meta by '
                  'indent + indent_by and comments by indent; classes without _indent indent meta by indent_by alone')
    n = 0
    for tc in build_tree_classes(p):
        c = tc.cls
        has_indent = tc.field('_indent') is not None
        decls = {k: v for k, v in c.attrs.items() if isinstance(v, DescriptorDecl)}
        meta = [d for d in decls.values() if d.kind.name == 'repeated_meta_item_property']
        comments = [d for d in decls.values() if d.name in ('leading_comment', 'trailing_comment')]
        if not meta and not comments:
            continue
        n += 1
        problems: list[str] = []
        for d in meta:
            args = [norm(a) for a in d.call.args]
            want = 3 if has_indent else 2
            if len(args) != want or (has_indent and args[2] != 'raw_indent') or args[1] != 'indent_by':
                problems.append(f'{d.name} = repeated_meta_item_property({", ".join(args)}) '
                                f'({"expected" if has_indent else "unexpected"} raw_indent for a class '
                                f'{"with" if has_indent else "without"} an _indent field)')
        for d in comments:
            kind = d.kind.name
            if has_indent:
                args = [norm(a) for a in d.call.args]
                if kind != 'optional_indented_string_property' or len(args) != 3 or args[2] != 'raw_indent':
                    problems.append(f'{d.name} uses {kind}({", ".join(args)}) in an indented class')
            else:
                if kind != 'optional_string_property':
                    problems.append(f'{d.name} uses {kind} in a class without an _indent field')
        fv = c.attrs.get('from_value')
        # hand-written subclasses (models/transaction.py, document.py, note.py, custom.py) override from_value: every meta mapping they
        # turn into items gets the same indentation rule, whatever the shape of the function
        for sub in [k for k in p.classes if c in k.mro and k is not c and isinstance(k.attrs.get('from_value'), FuncInfo)]:
            sfv = sub.attrs['from_value']
            calls = [x for x in walk_no_nested(sfv.node) if isinstance(x, ast.Call) and norm(x.func).endswith('from_mapping')]
            want = 'indent + indent_by' if has_indent else 'indent_by'
            for x in calls:
                got = _kw_text(sfv, x, 'indent')
                if got != [want]:
                    problems.append(f'{sub.name}.from_value ({sub.module.relpath}) indents meta by {got or "the default of from_mapping"}, expected {want}')
            if meta and not calls:
                problems.append(f'{sub.name}.from_value ({sub.module.relpath}) does not build its meta items through from_mapping(meta, indent=...)')
        if isinstance(fv, FuncInfo):
            e = single_return_expr(fv)
            if isinstance(e, ast.Call):
                kws = {k.arg: k.value for k in e.keywords if k.arg}
                m = kws.get('meta')
                if m is not None:
                    calls = [x for x in ast.walk(m) if isinstance(x, ast.Call) and norm(x.func).endswith('from_mapping')]
                    want = 'indent + indent_by' if has_indent else 'indent_by'
                    got = [norm(k.value) for x in calls for k in x.keywords if k.arg == 'indent']
                    if got != [want]:
                        problems.append(f'from_value indents meta by {got}, expected {want}')
                for cm in ('leading_comment', 'trailing_comment'):
                    v = kws.get(cm)
                    if v is None:
                        continue
                    calls = [x for x in ast.walk(v) if isinstance(x, ast.Call) and norm(x.func).endswith('BlockComment.from_value')]
                    got = [norm(k.value) for x in calls for k in x.keywords if k.arg == 'indent']
                    want_c = ['indent'] if has_indent else []
                    if got != want_c:
                        problems.append(f'from_value indents {cm} by {got}, expected {want_c}')
                if has_indent and norm(kws.get('indent')) != 'Indent.from_value(indent)':
                    problems.append('from_value does not build the indent token from `indent`')
        ctx.check(not problems, rid, f'{c.module.name.split(".", 1)[1]}:{c.name}', '; '.join(problems) or 'ok',
                  '; '.join(problems), c.where, note=f'indented={has_indent}, {len(meta)} meta, {len(comments)} comment properties')
    if n < 20:
        raise AnalysisError(f'IND-CLASS: only {n} classes with meta/comments (>= 20 confirmed)')


def rule_ind_comment(ctx: RuleContext, p: Program, rid: str) -> None:
    ctx.rule(rid, 'optional_indented_string_property.__set__: update assigns only .value of the existing comment; creation '
                  'passes indent=<owner indent value> to from_value; clearing stores None')
    c = p.cls('optional_indented_string_property', 'models.internal.value_properties')
    f = p.method(c, '__set__', inherited=False)
    inst, val = f.params[1], f.params[2]
    upd = [a for a in walk_no_nested(f.node) if isinstance(a, ast.Assign) and isinstance(a.targets[0], ast.Attribute)]
    creates = [x for x in walk_no_nested(f.node) if isinstance(x, ast.Call) and norm(x.func) == 'self._inner_type.from_value']
    ind = [a for a in walk_no_nested(f.node) if isinstance(a, ast.Assign) and norm(a.targets[0]) == 'indent']
    ok = [norm(a.targets[0]) for a in upd] == ['current.value'] and len(creates) == 1 \
        and any(k.arg == 'indent' and norm(k.value) == 'indent' for k in creates[0].keywords) \
        and len(ind) == 1 and norm(ind[0].value) == f'self._indent_property.__get__({inst}).value'
    ctx.check(ok, rid, 'models.internal.value_properties:optional_indented_string_property.__set__', 'indent only on creation',
              'the indented comment property does not (only) pass the owner\'s indent on creation', f.where,
              note='update: current.value = v; create: from_value(v, indent=<owner indent>)')


def rule_ind_nowrite(ctx: RuleContext, p: Program, rid: str) -> None:
    ctx.rule(rid, 'no library code assigns `.indent` / `._indent` of a node other than the node\'s own setter/constructor/'
                  '_reattach (existing lines keep their indentation)')
    n = 0
    for m in p.modules.values():
        if 'modelgen' in m.name or 'meta_models' in m.name:
            continue
        for fn in p.functions_in(m):
            for a in walk_no_nested(fn.node):
                tgts = a.targets if isinstance(a, ast.Assign) else [a.target] if isinstance(a, ast.AugAssign) else []
                for t in tgts:
                    if isinstance(t, ast.Attribute) and t.attr in ('indent', '_indent'):
                        n += 1
                        own = self_attr(t) is not None and (fn.name in ('__init__', '_reattach') or fn.prop == 'indent')
                        ctx.check(own, rid, f'{m.name.split(".", 1)[1]}:{fn.qualname}', norm(a)[:100],
                                  f'`{norm(a)[:100]}` rewrites the indentation of an existing node', fn.where,
                                  note='own constructor / setter / _reattach', nontrivial=False)
    if n < 5:
        raise AnalysisError(f'IND-NOWRITE: only {n} indent writers seen')


def run(ctx: RuleContext, p: Program) -> None:
    ctx.try_rule(rule_ind_flow, p, 'IND-FLOW')
    ctx.try_rule(rule_ind_class, p, 'IND-CLASS')
    ctx.try_rule(rule_ind_comment, p, 'IND-COMMENT')
    ctx.try_rule(rule_ind_nowrite, p, 'IND-NOWRITE')
    from . import round4
    ctx.try_rule(round4.rule_memo, p, 'MEMO')
    from . import c12 as _c12
    ctx.try_rule(_c12.rule_bc_rt, p, _c12.grammar(p), 'BC-RT')
    ctx.try_rule(round4.rule_desc_state, p, 'DESC-STATE')
    # the indentation that was computed is what the INDENT token holds: Indent writes and reads its value verbatim
    ctx.try_rule(_c12.rule_tok_rt, p, _c12.grammar(p), 'TOK-RT', ('Indent',))
    ctx.not_decided += ['concrete indentation strings', 'that inserted raw nodes print their own indent verbatim (C01/C02)']
    ctx.assumptions += ['MetaItem.from_value(indent=...) and BlockComment.from_value(indent=...) use the given indent (IND-CLASS '
                        'checks the generated from_value of MetaItem itself)']
