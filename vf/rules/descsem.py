"""DESC-SEM (C03, C05, C10): the node-property descriptors of models/internal/properties.py, interpreted against mock fields and instances.

 * required_node_property / optional_node_property `__set__`: for (child present / absent) x (None / a new node / the node that is there), exactly one
   structural operation of the right kind happens -- create in front of / behind the pivot, remove, replace -- with the right operands, and the
   field holds the assigned value afterwards;
 * repeated_node_property (and every subclass of it in the package): `__get__` hands out ONE wrapper per model instance, built on that instance's
   Repeated; two instances get two wrappers; `__set__` replaces the Repeated node, stores it in the field, and the wrapper read afterwards is the
   assigned one;
 * custom_property / cached_custom_property: `__get__` is what the getter returns (computed once per instance for the cached kind, once per
   instance -- not per class), `__set__` reaches the setter; drop_cached_views forgets exactly the cached views of that instance.

The repository code is interpreted by the checker; nothing is run."""
from __future__ import annotations

import ast
from typing import Any, Optional

from ..model import Program, FuncInfo, AnalysisError, norm
from ..report import RuleContext
from . import possem


def rule_desc_sem(ctx: RuleContext, p: Program, rid: str) -> None:
    from .tokenstore import TS
    ctx.rule(rid, 'the node-property descriptors, interpreted against mock fields: optional_node_property.__set__ over (child absent / present) x (None / a new '
                  'node / the very node that is there) performs exactly one structural operation of the right kind with the right operands (create at the '
                  'pivot, remove, replace) and leaves the assigned value in the field; required_node_property.__set__ replaces and stores; '
                  'repeated_node_property.__get__ hands out one wrapper per instance, built on that instance\'s Repeated, and __set__ replaces the '
                  'node, stores it and makes the assigned wrapper the one read afterwards; custom_property / cached_custom_property reach getter and '
                  'setter, the cached kind computes once per instance; drop_cached_views forgets the cached views of that instance only')
    ts = TS(p)
    m = p.module('models.internal.properties')

    def cls(name: str) -> Any:
        return p.cls(name, 'models.internal.properties')

    class Interp(possem.PosInterp):
        tag = 'DESC-SEM'
        _foreign_methods = True

        def __init__(self) -> None:
            super().__init__(ts, [], module=m)
            self.log: list = []

        def method(self, cls_: str, name: str) -> Any:            # type: ignore[override]
            cands = [c_ for c_ in p.class_by_name.get(cls_, []) if not c_.module.name.endswith('_test')]
            if len(cands) != 1:
                return super().method(cls_, name)
            c = cands[0]
            f = c.lookup(name)
            return f if isinstance(f, FuncInfo) else None

        def _call_function(self, fn: Any, args: list, kwargs: dict) -> Any:       # type: ignore[override]
            self.__dict__.setdefault('_stack', []).append(fn)
            try:
                return super()._call_function(fn, args, kwargs)
            finally:
                self._stack.pop()

        def expr(self, e: Any, env: dict) -> Any:                 # type: ignore[override]
            if isinstance(e, ast.Call) and isinstance(e.func, ast.Attribute) and isinstance(e.func.value, ast.Call) and norm(e.func.value.func) == 'super' \
                    and not e.func.value.args and getattr(self, '_stack', None):
                # super().method(...): the next class in the MRO of the class the running function is defined in that has the method
                cur = self._stack[-1]
                if cur.cls is None:
                    raise self.err(e, 'super() outside a method')
                target = None
                for b in cur.cls.mro[1:]:
                    t_ = b.attrs.get(e.func.attr)
                    if isinstance(t_, FuncInfo):
                        target = t_
                        break
                if target is None:
                    if e.func.attr == '__init__':
                        return None
                    raise self.err(e, 'super() method')
                recv = env[cur.node.args.args[0].arg]
                return self.call_function(target, [recv] + [self.expr(x, env) for x in e.args], {k.arg: self.expr(k.value, env) for k in e.keywords if k.arg})
            if isinstance(e, ast.Call) and norm(e.func) in ('replace_node', 'properties.replace_node') and norm(e.func).split('.')[0] not in env:
                a = [self.expr(x, env) for x in e.args]
                self.log.append(('replace', *a))
                return None
            if isinstance(e, ast.Call) and isinstance(e.func, ast.Attribute) and not (isinstance(e.func.value, ast.Name) and e.func.value.id not in env):
                try:
                    recv = self.expr(e.func.value, env)
                except AnalysisError:
                    recv = None
                if isinstance(recv, possem.Obj) and recv.cls == 'Field':
                    a = [self.expr(x, env) for x in e.args]
                    if e.func.attr == '__get__':
                        return a[0].f['__field__'].get(recv.label)
                    if e.func.attr == '__set__':
                        a[0].f['__field__'][recv.label] = a[1]
                        self.log.append(('field-set', a[1]))
                        return None
                    if e.func.attr in ('_create_node', '_remove_node'):
                        self.log.append((e.func.attr, *a))
                        return None
                    raise self.err(e, 'field method')
                if isinstance(recv, possem.Obj) and recv.cls == 'Wrapper' and e.func.attr not in recv.f:
                    self.log.append(('wrapper-call', recv, e.func.attr))          # a method of a wrapper (a notification, a re-claim): not this rule's business
                    for x in e.args:
                        self.expr(x, env)
                    return None
                if isinstance(recv, possem.Obj) and recv.cls == 'Pivot' and e.func.attr == '__get__':
                    self.expr(e.args[0], env)
                    return recv.f['token']
                if isinstance(recv, dict) and e.func.attr in ('get', 'pop', 'setdefault'):
                    return super().expr(e, env)
            if isinstance(e, ast.Call) and isinstance(e.func, ast.Name) and e.func.id in ('RepeatedNodeWrapper', 'RepeatedNodeWithInterleavingCommentsWrapper') and e.func.id not in env:
                a = [self.expr(x, env) for x in e.args]
                self.log.append(('wrapper-built', a[0]))
                return possem.Obj('Wrapper', {'repeated': a[0], '_repeated': a[0], 'field': a[1] if len(a) > 1 else None}, 'a wrapper')
            if isinstance(e, ast.Call) and norm(e.func) in ('drop_cached_views', 'properties.drop_cached_views') and norm(e.func).split('.')[0] not in env:
                a = [self.expr(x, env) for x in e.args]
                self.log.append(('drop-cached', a[0]))
                return None
            if isinstance(e, ast.Attribute) and e.attr == '__dict__' and not (isinstance(e.value, ast.Name) and e.value.id not in env):
                b = self.expr(e.value, env)
                if isinstance(b, possem.Obj) and '__dict__' in b.f:
                    return b.f['__dict__']
            return super().expr(e, env)

        def truth(self, v: Any, node: Any) -> bool:               # type: ignore[override]
            if isinstance(v, possem.Obj):
                return True
            return super().truth(v, node)

    def instance() -> Any:
        return possem.Obj('Instance', {'__field__': {}, '__dict__': {}, 'token_store': possem.Obj('Store', {}, 'the store')}, 'a model')

    # ---- optional_node_property.__set__ / required_node_property.__set__
    opt = cls('optional_node_property')
    fset = opt.lookup('__set__')
    if not isinstance(fset, FuncInfo):
        raise AnalysisError('DESC-SEM: optional_node_property.__set__ not found')
    problem: Optional[str] = None
    for present in (False, True):
        for what in ('None', 'new', 'same'):
            if what == 'same' and not present:
                continue
            inst = instance()
            cur = possem.Obj('Node', {}, 'the child that is there')
            new = possem.Obj('Node', {}, 'a new node')
            field = possem.Obj('Field', {}, 'inner')
            pivot_tok = possem.Obj('Tok', {}, 'the pivot token')
            inst.f['__field__']['inner'] = cur if present else None
            me = possem.Obj('optional_node_property', {'_inner_field': field, '_pivot_property': possem.Obj('Pivot', {'token': pivot_tok}, 'pivot')}, 'descriptor')
            val = None if what == 'None' else new if what == 'new' else cur
            it = Interp()
            show = f'child {"present" if present else "absent"}, assigned: {"None" if what == "None" else "a new node" if what == "new" else "the node that is there"}'
            try:
                it.call_function(fset, [me, inst, val], {})
            except possem.Raised as ex:
                problem = problem or f'{show}: raises {ex}'
                continue
            ops = [x for x in it.log if x[0] != 'field-set']
            store = inst.f['token_store']
            if not present and what == 'None':
                want = []
            elif not present:
                want = [('_create_node', store, pivot_tok, new)]
            elif what == 'None':
                want = [('_remove_node', store, pivot_tok, cur)]
            elif what == 'new':
                want = [('replace', cur, new)]
            else:
                want = None                       # the node itself: a replace of it by itself (a no-op) or nothing at all
            ok = (ops in ([], [('replace', cur, cur)])) if want is None else (len(ops) == len(want) and all(len(a) == len(b) and all(x is y for x, y in zip(a[1:], b[1:])) and a[0] == b[0] for a, b in zip(ops, want)))
            if not ok:
                def sh(o: tuple) -> str:
                    return o[0] + '(' + ', '.join(getattr(x, 'label', repr(x)) for x in o[1:]) + ')'
                problem = problem or (f'{show}: performs [{", ".join(sh(o) for o in ops)}], expected '
                                      f'[{", ".join(sh(o) for o in (want or []))}]{" or the no-op replace of the node by itself" if want is None else ""}')
                continue
            if inst.f['__field__'].get('inner') is not val:
                problem = problem or f'{show}: afterwards the field holds {getattr(inst.f["__field__"].get("inner"), "label", None)}, not the assigned value'
    ctx.check(problem is None, rid, 'models.internal.properties:optional_node_property.__set__', problem or 'one structural operation of the right kind',
              f'optional_node_property.__set__: {problem}', fset.where, note='5 (present?, value) pairs')

    req = cls('required_node_property')
    rset = req.lookup('__set__')
    if isinstance(rset, FuncInfo):
        inst = instance()
        cur, new = possem.Obj('Node', {}, 'the child that is there'), possem.Obj('Node', {}, 'a new node')
        field = possem.Obj('Field', {}, 'inner')
        inst.f['__field__']['inner'] = cur
        me = possem.Obj('required_node_property', {'_inner_field': field}, 'descriptor')
        it = Interp()
        problem = None
        try:
            it.call_function(rset, [me, inst, new], {})
        except possem.Raised as ex:
            problem = f'raises {ex}'
        ops = [x for x in it.log if x[0] != 'field-set']
        if problem is None and not (len(ops) == 1 and ops[0][0] == 'replace' and ops[0][1] is cur and ops[0][2] is new):
            problem = f'performs {[o[0] for o in ops]} instead of one replace_node(<current>, <new>)'
        if problem is None and inst.f['__field__'].get('inner') is not new:
            problem = 'the field does not hold the assigned node afterwards'
        ctx.check(problem is None, rid, 'models.internal.properties:required_node_property.__set__', problem or 'replace and store', f'required_node_property.__set__: {problem}', rset.where)

    # ---- repeated_node_property: one wrapper per instance
    for dname, dmod in (('repeated_node_property', 'models.internal.properties'), ('repeated_node_with_interleaving_comments_property', 'models.internal.interleaving_comments')):
        rep = p.cls(dname, dmod)
        mod_ = p.module(dmod)
        rget = rep.lookup('_get')
        rset2 = rep.lookup('__set__')
        if not isinstance(rget, FuncInfo) or not isinstance(rset2, FuncInfo):
            raise AnalysisError(f'DESC-SEM: {dname}._get / __set__ not found')
        problem = None
        field = possem.Obj('Field', {}, 'inner')
        me = possem.Obj(dname, {'_inner_field': field, '_attr': 'raw_items'}, 'descriptor')
        i1, i2 = instance(), instance()
        r1, r2 = possem.Obj('Repeated', {}, 'repeated of model 1'), possem.Obj('Repeated', {}, 'repeated of model 2')
        i1.f['__field__']['inner'], i2.f['__field__']['inner'] = r1, r2
        it = Interp()
        it.mod = mod_
        it.funcs = {f.qualname: f for f in p.functions_in(mod_) if f.kind != 'overload' and f.parent is None}
        try:
            a1 = it.call_function(rget, [me, i1], {})
            a2 = it.call_function(rget, [me, i1], {})
            b1 = it.call_function(rget, [me, i2], {})
            if not (isinstance(a1, possem.Obj) and a1.cls == 'Wrapper'):
                problem = f'__get__ hands out {a1!r}, not a wrapper'
            elif a1 is not a2:
                problem = 'two reads of the property on one model give two wrappers: views registered on the first never hear of edits made through the second'
            elif b1 is a1 or not isinstance(b1, possem.Obj):
                problem = 'two models share one wrapper (the memo is kept on the descriptor, one object per class, instead of on the instance)'
            elif a1.f['repeated'] is not r1 or b1.f['repeated'] is not r2:
                problem = 'the wrapper is not built on the Repeated of the model it is read from'
            if problem is None:
                newrep = possem.Obj('Repeated', {}, 'repeated of the assigned wrapper')
                assigned = possem.Obj('Wrapper', {'repeated': newrep, '_repeated': newrep}, 'the assigned wrapper')
                it.log.clear()
                it.call_function(rset2, [me, i1, assigned], {})
                ops = [x for x in it.log if x[0] == 'replace']
                if not (len(ops) == 1 and ops[0][1] is r1 and ops[0][2] is newrep):
                    problem = '__set__ does not replace the model\'s Repeated node by the one of the assigned wrapper (exactly once)'
                elif i1.f['__field__'].get('inner') is not newrep:
                    problem = '__set__ leaves the old Repeated in the field'
                elif it.call_function(rget, [me, i1], {}) is not assigned:
                    problem = ('after `model.prop = w` the property hands out another wrapper than w: two wrappers then share one item list, and the views hear only of '
                               'edits made through one of them')
                elif not any(x[0] == 'drop-cached' and x[1] is i1 for x in it.log):
                    problem = '__set__ does not drop the cached views of the instance (they stay bound to the replaced wrapper)'
        except possem.Raised as ex:
            problem = f'raises {ex}'
        ctx.check(problem is None, rid, f'{dmod}:{dname}', problem or 'one wrapper per instance; assignment installs the assigned one',
                  f'{dname}: {problem}', rget.where)

    # ---- custom_property / cached_custom_property / drop_cached_views
    problem = None
    calls: list = []
    cc = cls('cached_custom_property')
    cp = cls('custom_property')
    cget, cset = cc.lookup('_get'), cc.lookup('__set__')
    pget, pset = cp.lookup('_get'), cp.lookup('__set__')
    if not all(isinstance(x, FuncInfo) for x in (cget, cset, pget, pset)):
        raise AnalysisError('DESC-SEM: custom_property / cached_custom_property protocol methods not found')

    def mk_desc(kind: str) -> Any:
        def fget(inst_: Any) -> Any:
            calls.append(('get', inst_))
            return possem.Obj('View', {'of': inst_}, f'view #{len(calls)}')

        def fset_(inst_: Any, v: Any) -> None:
            calls.append(('set', inst_, v))
        return possem.Obj(kind, {'_fget': possem._PyFn(fget), '_fset': possem._PyFn(fset_), '_attr': 'values'}, 'descriptor')
    try:
        d = mk_desc('cached_custom_property')
        i1, i2 = instance(), instance()
        it = Interp()
        v1 = it.call_function(cget, [d, i1], {})
        v1b = it.call_function(cget, [d, i1], {})
        v2 = it.call_function(cget, [d, i2], {})
        if v1 is not v1b:
            problem = 'a cached view property computes a new view at every read (views handed out earlier go stale silently)'
        elif v2 is v1 or getattr(v2, 'f', {}).get('of') is not i2:
            problem = 'a cached view property hands the view of one model to another (cached per class, not per instance)'
        elif sum(1 for c in calls if c[0] == 'get') != 2:
            problem = f'the getter ran {sum(1 for c in calls if c[0] == "get")} times for two models'
        if problem is None:
            nv = possem.Obj('View', {}, 'assigned view')
            it.call_function(cset, [d, i1, nv], {})
            if not any(c[0] == 'set' and c[1] is i1 and c[2] is nv for c in calls):
                problem = 'assignment to a cached view property does not reach its setter'
        if problem is None:
            d2 = mk_desc('custom_property')
            calls.clear()
            w1 = it.call_function(pget, [d2, i1], {})
            it.call_function(pset, [d2, i1, 'x'], {})
            if not (isinstance(w1, possem.Obj) and w1.f.get('of') is i1) or not any(c[0] == 'set' and c[2] == 'x' for c in calls):
                problem = 'custom_property does not reach its getter / setter'
    except possem.Raised as ex:
        problem = f'raises {ex}'
    ctx.check(problem is None, rid, 'models.internal.properties:cached_custom_property / custom_property', problem or 'getter once per instance; setter reached',
              f'cached_custom_property / custom_property: {problem}', cget.where)


def rule_field_sem(ctx: RuleContext, p: Program, rid: str) -> None:
    """optional_left_field / optional_right_field: _create_node and _remove_node against a mock store"""
    from .tokenstore import TS
    ctx.rule(rid, 'optional_left_field / optional_right_field._create_node and _remove_node, interpreted against a mock store in which a zero-width '
                  'place-holder stands next to the pivot (the tags / links place-holder behind a transaction flag): with 0, 1 and 2 separator tokens, '
                  'creation puts <separators> <node> directly behind the pivot (left field) or <node> <separators> directly in front of it (right '
                  'field) -- the separators fresh copies, every other token where it was, the node reattached to the store -- and removal afterwards '
                  'restores the store token for token')
    ts = TS(p)
    m = p.module('models.internal.fields')
    problems: dict = {}
    n = 0
    for cname, side in (('optional_left_field', 'left'), ('optional_right_field', 'right')):
        c = p.cls(cname, 'models.internal.fields')
        create, remove = c.lookup('_create_node'), c.lookup('_remove_node')
        if not isinstance(create, FuncInfo) or not isinstance(remove, FuncInfo):
            raise AnalysisError(f'FIELD-SEM: {cname}._create_node / _remove_node not found')
        for n_sep in (0, 1, 2):
            protos = tuple(possem.Obj('Tok', {'raw_text': ' ', 'proto': True}, f'separator prototype {i}') for i in range(n_sep))
            me = possem.Obj(cname, {'_separators': protos, 'separators': protos}, 'the field')
            ctx_l, ctx_r = possem.Obj('Tok', {'raw_text': 'L'}, 'LEFT'), possem.Obj('Tok', {'raw_text': 'R'}, 'RIGHT')
            pivot = possem.Obj('Tok', {'raw_text': '*'}, 'pivot')
            ph = possem.Obj('Tok', {'raw_text': '', 'placeholder': True}, 'placeholder')
            doc = [ctx_l, pivot, ph, ctx_r] if side == 'left' else [ctx_l, ph, pivot, ctx_r]
            before = list(doc)
            v1, v2 = possem.Obj('Tok', {'raw_text': 'v'}, 'node.first'), possem.Obj('Tok', {'raw_text': ''}, 'node.last')
            node = possem.Obj('Node', {'first_token': v1, 'last_token': v2, 'tokens': [v1, v2], 'store': None}, 'the new node')
            store = possem.Obj('Store', {}, 'store')

            class Interp(possem.PosInterp):
                tag = 'FIELD-SEM'

                def expr(self, e: Any, env: dict) -> Any:         # type: ignore[override]
                    if isinstance(e, ast.Call) and norm(e.func) == 'isinstance' and len(e.args) == 2 and norm(e.args[1]).rsplit('.', 1)[-1] == 'Placeholder':
                        v = self.expr(e.args[0], env)
                        return isinstance(v, possem.Obj) and bool(v.f.get('placeholder'))
                    if isinstance(e, ast.Call) and isinstance(e.func, ast.Attribute) and not (isinstance(e.func.value, ast.Name) and e.func.value.id not in env):
                        try:
                            recv = self.expr(e.func.value, env)
                        except AnalysisError:
                            recv = None
                        if recv is node and e.func.attr == 'detach':
                            if any(any(x is y for y in doc) for x in node.f['tokens']):
                                raise possem.Raised('ValueError: Cannot reuse node.')
                            return list(node.f['tokens'])
                        if recv is node and e.func.attr == 'reattach':
                            node.f['store'] = self.expr(e.args[0], env)
                            return node
                        if recv is store:
                            a = [self.expr(x, env) for x in e.args]

                            def at(t: Any) -> int:
                                for i, x in enumerate(doc):
                                    if x is t:
                                        return i
                                raise possem.Raised('ValueError: token is not in the store')
                            if e.func.attr in ('get_next', 'get_prev'):
                                j = at(a[0]) + (1 if e.func.attr == 'get_next' else -1)
                                return doc[j] if 0 <= j < len(doc) else None
                            if e.func.attr in ('insert_after', 'insert_before'):
                                i = 0 if a[0] is None else at(a[0]) + (1 if e.func.attr == 'insert_after' else 0)
                                if a[0] is None and e.func.attr == 'insert_before':
                                    i = len(doc)
                                new = list(self.iter_of(a[1], e))
                                if any(any(x is y for y in doc) for x in new):
                                    raise possem.Raised('ValueError: token already in the store')
                                doc[i:i] = new
                                return None
                            if e.func.attr == 'remove' and len(a) == 2:
                                i, j = at(a[0]), at(a[1])
                                if j < i:
                                    raise possem.Raised('ValueError: reversed range')
                                del doc[i:j + 1]
                                return None
                            if e.func.attr == 'splice' and len(a) == 3:
                                i, j = at(a[1]), at(a[2])
                                doc[i:j + 1] = list(self.iter_of(a[0], e))
                                return None
                            raise self.err(e, 'store call')
                    return super().expr(e, env)

                def truth(self, v: Any, node_: Any) -> bool:      # type: ignore[override]
                    if isinstance(v, possem.Obj):
                        return True
                    return super().truth(v, node_)

            n += 1
            show = f'{cname}, {n_sep} separator token(s)'
            try:
                Interp(ts, [], module=m).call_function(create, [me, store, pivot, node], {})
            except possem.Raised as ex:
                problems.setdefault(cname, f'{show}: _create_node raises {ex}')
                continue
            k = 2 + n_sep
            got = [x.label for x in doc]
            ok = len(doc) == len(before) + k
            if ok and side == 'left':
                seg = doc[2:2 + k]
                ok = doc[:2] == before[:2] and all(a is b for a, b in zip(doc[2 + k:], before[2:])) and seg[n_sep] is v1 and seg[n_sep + 1] is v2 \
                    and all(x.f.get('proto') and not any(x is y for y in protos) for x in seg[:n_sep])
            elif ok:
                seg = doc[2:2 + k]
                ok = all(a is b for a, b in zip(doc[:2], before[:2])) and all(a is b for a, b in zip(doc[2 + k:], before[2:])) and seg[0] is v1 and seg[1] is v2 \
                    and all(x.f.get('proto') and not any(x is y for y in protos) for x in seg[2:])
            if not ok:
                want = (['LEFT', 'pivot'] + ['<copy of a separator>'] * n_sep + ['node.first', 'node.last', 'placeholder', 'RIGHT']) if side == 'left' else \
                    (['LEFT', 'placeholder', 'node.first', 'node.last'] + ['<copy of a separator>'] * n_sep + ['pivot', 'RIGHT'])
                problems.setdefault(cname, f'{show}: after _create_node the store reads {got}, expected {want} (separators as fresh copies): the node does not sit directly '
                                           f'{"behind" if side == "left" else "in front of"} its pivot -- a zero-width token between them is the anchor of a sibling field')
                continue
            if node.f['store'] is not store:
                problems.setdefault(cname, f'{show}: the new node is not reattached to the store')
                continue
            try:
                Interp(ts, [], module=m).call_function(remove, [me, store, pivot, node], {})
            except possem.Raised as ex:
                problems.setdefault(cname, f'{show}: _remove_node raises {ex}')
                continue
            if len(doc) != len(before) or any(a is not b for a, b in zip(doc, before)):
                problems.setdefault(cname, f'{show}: after _create_node and _remove_node the store reads {[x.label for x in doc]}, it was {[x.label for x in before]}')
    for cname in ('optional_left_field', 'optional_right_field'):
        c = p.cls(cname, 'models.internal.fields')
        fn = c.lookup('_create_node')
        ctx.check(cname not in problems, rid, f'models.internal.fields:{cname}._create_node / _remove_node', problems.get(cname) or 'node directly at its pivot; removal restores the store',
                  f'{problems.get(cname, "")}', fn.where if isinstance(fn, FuncInfo) else '', note=f'{n} scenarios in all')


def rule_rep_edge(ctx: RuleContext, p: Program, rid: str) -> None:
    """the extent of a repeated section: Repeated.first_token / last_token, interpreted"""
    from .tokenstore import TS
    ctx.rule(rid, 'Repeated.first_token / last_token, interpreted for 0, 1 and 3 items: the section starts at its place-holder and ends at the last token of '
                  'its last item -- at the place-holder itself when it has no items (every pivot chain, deletion range and deep copy of a model with a '
                  'repeated field rests on this extent)')
    ts = TS(p)
    cands = [c for c in p.class_by_name.get('Repeated', []) if not c.module.name.endswith('_test')]
    if len(cands) != 1:
        raise AnalysisError('REP-EDGE: class Repeated not found')
    c = cands[0]
    problem = None
    for n in (0, 1, 3):
        ph = possem.Obj('Tok', {'raw_text': ''}, 'the place-holder')
        items = [possem.Obj('Item', {'first_token': possem.Obj('Tok', {}, f'item{i}.first'), 'last_token': possem.Obj('Tok', {}, f'item{i}.last')}, f'item{i}') for i in range(n)]
        me = possem.Obj('Repeated', {'_placeholder': ph, 'placeholder': ph, 'items': list(items)}, 'the section')
        for edge, want in (('first_token', ph), ('last_token', items[-1].f['last_token'] if items else ph)):
            fn = p.method(c, edge, inherited=False)
            try:
                got = possem.PosInterp(ts, [], module=c.module).call_function(fn, [me], {})
            except possem.Raised as ex:
                problem = problem or f'{n} item(s): {edge} raises {ex}'
                continue
            if got is not want:
                problem = problem or f'{n} item(s): {edge} is {getattr(got, "label", got)!r}, expected {want.label!r}'
    fn = p.method(c, 'last_token', inherited=False)
    ctx.check(problem is None, rid, 'models.internal.repeated:Repeated.first_token / last_token', problem or 'place-holder .. last token of the last item',
              f'Repeated: {problem}', fn.where if isinstance(fn, FuncInfo) else '', note='0, 1, 3 items')


def rule_txn_sem(ctx: RuleContext, p: Program, rid: str) -> None:
    """the hand-written constructors of Transaction: which of the two header strings is the payee and which the narration"""
    from .tokenstore import TS
    ctx.rule(rid, 'Transaction.from_parsed_children and Transaction.from_children, interpreted with the generated base constructor as a recorder: of the two '
                  'header strings the grammar delivers, a lone string is the narration (payee slot empty) and two strings are payee then narration, '
                  'every other child handed on in its position; from_children hands payee and narration to the slots of those names, supplies an '
                  'empty narration exactly when a payee comes without one, and passes every keyword argument on under its own name')
    ts = TS(p)
    c = p.cls('Transaction', 'models.transaction')
    fpc = c.attrs.get('from_parsed_children')
    fc = c.attrs.get('from_children')
    if not isinstance(fpc, FuncInfo) or not isinstance(fc, FuncInfo):
        raise AnalysisError('TXN-SEM: Transaction.from_parsed_children / from_children not found in models/transaction.py')
    calls: list = []

    class Interp(possem.PosInterp):
        tag = 'TXN-SEM'

        def expr(self, e: Any, env: dict) -> Any:                 # type: ignore[override]
            if isinstance(e, ast.Call) and isinstance(e.func, ast.Attribute) and isinstance(e.func.value, ast.Call) and norm(e.func.value.func) == 'super':
                args: list = []
                for a in e.args:
                    if isinstance(a, ast.Starred):
                        args.extend(self.iter_of(self.expr(a.value, env), e))
                    else:
                        args.append(self.expr(a, env))
                kw = {k.arg: self.expr(k.value, env) for k in e.keywords if k.arg}
                calls.append((e.func.attr, args, kw))
                return possem.Obj('Built', {}, 'the transaction')
            if isinstance(e, ast.Call) and isinstance(e.func, ast.Attribute) and e.func.attr == 'from_value' and norm(e.func.value).endswith('EscapedString'):
                return possem.Obj('Str', {'value': self.expr(e.args[0], env), 'made': True}, 'a new string token')
            return super().expr(e, env)

        def truth(self, v: Any, node: Any) -> bool:               # type: ignore[override]
            if isinstance(v, possem.Obj):
                return True
            return super().truth(v, node)

    clsobj = possem.Obj('TransactionClass', {}, 'cls')
    problem = None
    for has1 in (False, True):
        for has2 in (False, True):
            store = possem.Obj('Store', {}, 'store')
            lead, date, flag = (possem.Obj('Child', {}, n_) for n_ in ('leading comment', 'date', 'flag'))
            s1 = possem.Obj('Str', {'value': 'first'}, 'the first string') if has1 else None
            s2 = possem.Obj('Str', {'value': 'second'}, 'the second string') if has2 else None
            rest = [possem.Obj('Child', {}, f'child{i}') for i in range(4)]
            calls.clear()
            try:
                Interp(ts, [], module=c.module).call_function(fpc, [clsobj, store, lead, date, flag, None, s1, s2, *rest], {})
            except possem.Raised as ex:
                problem = problem or f'from_parsed_children with {int(has1) + int(has2)} string(s): raises {ex}'
                continue
            if len(calls) != 1 or calls[0][0] != 'from_parsed_children':
                problem = problem or 'from_parsed_children does not hand on to the generated constructor exactly once'
                continue
            a = calls[0][1]
            want_p, want_n = (s1, s2) if has1 and has2 else (None, s1) if has1 else (None, s2)
            show = f'header strings delivered: {"first" if has1 else "-"}, {"second" if has2 else "-"}'
            if len(a) != 11 or a[0] is not store or a[1] is not lead or a[2] is not date or a[3] is not flag or any(x is not y for x, y in zip(a[7:], rest)):
                problem = problem or f'{show}: the other children are not handed on in their positions'
            elif a[4] is not None or a[5] is not want_p or a[6] is not want_n:
                problem = problem or (f'{show}: the slots become ({getattr(a[4], "label", a[4])}, {getattr(a[5], "label", a[5])}, {getattr(a[6], "label", a[6])}); expected '
                                      f'(None, {getattr(want_p, "label", None)}, {getattr(want_n, "label", None)}) -- a lone string is the narration, two strings are payee and narration')
    ctx.check(problem is None, rid, 'models.transaction:Transaction.from_parsed_children', problem or 'lone string = narration; two = payee, narration',
              f'Transaction.from_parsed_children: {problem}', fpc.where, note='4 presence combinations')
    problem = None
    kwnames = [a.arg for a in fc.node.args.kwonlyargs]
    for hasp in (False, True):
        for hasn in (False, True):
            date, flag, postings = (possem.Obj('Child', {}, n_) for n_ in ('date', 'flag', 'postings'))
            pay = possem.Obj('Str', {'value': 'P'}, 'the payee') if hasp else None
            nar = possem.Obj('Str', {'value': 'N'}, 'the narration') if hasn else None
            kws = {k: possem.Obj('Kw', {}, f'argument {k}') for k in kwnames}
            calls.clear()
            try:
                Interp(ts, [], module=c.module).call_function(fc, [clsobj, date, flag, pay, nar, postings], dict(kws))
            except possem.Raised as ex:
                problem = problem or f'from_children(payee {"given" if hasp else "None"}, narration {"given" if hasn else "None"}): raises {ex}'
                continue
            if len(calls) != 1 or calls[0][0] != 'from_children':
                problem = problem or 'from_children does not hand on to the generated constructor exactly once'
                continue
            a, kw = calls[0][1], calls[0][2]
            show = f'payee {"given" if hasp else "None"}, narration {"given" if hasn else "None"}'
            if len(a) != 6 or a[0] is not date or a[1] is not flag or a[2] is not None or a[5] is not postings:
                problem = problem or f'{show}: date / flag / the unused string slot / postings are not handed on in their positions'
            elif a[3] is not pay:
                problem = problem or f'{show}: the payee slot receives {getattr(a[3], "label", a[3])}'
            elif hasn and a[4] is not nar:
                problem = problem or f'{show}: the narration slot receives {getattr(a[4], "label", a[4])}'
            elif not hasn and hasp and not (isinstance(a[4], possem.Obj) and a[4].f.get('made') and a[4].f.get('value') == ''):
                problem = problem or f'{show}: a payee without narration needs an empty narration (one string alone reads as the narration); the slot receives {getattr(a[4], "label", a[4])}'
            elif not hasn and not hasp and a[4] is not None:
                problem = problem or f'{show}: a narration is invented ({getattr(a[4], "label", a[4])})'
            elif set(kw) != set(kwnames) or any(kw[k] is not kws[k] for k in kwnames):
                problem = problem or f'{show}: keyword arguments are not passed on under their own names ({sorted(k for k in kwnames if kw.get(k) is not kws[k])})'
    ctx.check(problem is None, rid, 'models.transaction:Transaction.from_children', problem or 'payee / narration to their slots; keywords under their names',
              f'Transaction.from_children: {problem}', fc.where, note='4 presence combinations')
