"""Coverage rules for the hand-written tree models (Repeated, NumberAddExpr, NumberMulExpr)."""
from __future__ import annotations

import ast
from typing import Optional

from ..model import AnalysisError, ClassInfo, CustomProp, FuncInfo, Program, norm, self_attr, stmts_no_doc, walk_no_nested
from ..report import RuleContext
from ..fieldmodel import single_return_expr


def hand_tree_classes(p: Program) -> list[ClassInfo]:
    """Tree-model classes that define their own __init__ without field descriptors."""
    from ..fieldmodel import build_tree_classes
    owned = {id(tc.cls) for tc in build_tree_classes(p)}
    out = []
    for c in p.tree_model_classes():
        init = c.attrs.get('__init__')
        if isinstance(init, FuncInfo) and id(c) not in owned:
            out.append(c)
    if len(out) < 3:
        raise AnalysisError(f'hand-written tree models: found {[c.name for c in out]}, expected Repeated, NumberAddExpr, NumberMulExpr')
    return out


def init_attrs(c: ClassInfo) -> list[tuple[str, str]]:
    """(attribute, constructor parameter it is built from) for `self.a = <expr over one param>`."""
    init = c.attrs['__init__']
    assert isinstance(init, FuncInfo)
    params = init.params[1:]
    out: list[tuple[str, str]] = []
    for st in stmts_no_doc(init.node.body):
        if isinstance(st, ast.Assign) and len(st.targets) == 1:
            a = self_attr(st.targets[0])
            if a is None:
                continue
            used = [n.id for n in ast.walk(st.value) if isinstance(n, ast.Name) and n.id in params]
            if len(used) == 1:
                out.append((a, used[0]))
    return out


def child_attrs(c: ClassInfo) -> list[tuple[str, str]]:
    init = c.attrs['__init__']
    assert isinstance(init, FuncInfo)
    store = init.params[1]
    return [(a, prm) for a, prm in init_attrs(c) if prm != store]


def _accessor_target(c: ClassInfo, name: str) -> str:
    """`self.placeholder` -> `_placeholder` when placeholder is a plain forwarding property."""
    sym = c.lookup(name)
    if isinstance(sym, CustomProp) and sym.fget is not None:
        e = single_return_expr(sym.fget)
        a = self_attr(e) if e is not None else None
        if a:
            return a
    return name


def rule_hand_clone(ctx: RuleContext, p: Program, rid: str) -> None:
    for c in hand_tree_classes(p):
        fn = c.attrs.get('clone')
        if not isinstance(fn, FuncInfo):
            raise AnalysisError(f'{c.qualname}: no own clone()')
        S, T = fn.params[1], fn.params[2]
        ret = [n for n in walk_no_nested(fn.node) if isinstance(n, ast.Return)]
        if len(ret) != 1 or not isinstance(ret[0].value, ast.Call):
            raise AnalysisError(f'{c.qualname}.clone: single constructor return not found')
        call = ret[0].value
        problems: list[str] = []
        if norm(call.func) not in ('type(self)', c.name):
            problems.append(f'constructs {norm(call.func)}')
        if not call.args or norm(call.args[0]) != S:
            problems.append(f'first constructor argument is {norm(call.args[0]) if call.args else None}, not the store parameter {S!r}')
        locals_: dict[str, ast.AST] = {}
        for st in stmts_no_doc(fn.node.body):
            if isinstance(st, ast.Assign) and isinstance(st.targets[0], ast.Name):
                locals_[st.targets[0].id] = st.value
        init = c.attrs['__init__']
        assert isinstance(init, FuncInfo)
        ctor_params = init.params[2:]
        attr_of_param = {prm: a for a, prm in child_attrs(c)}
        for i, a in enumerate(call.args[1:]):
            e: ast.AST = a
            if isinstance(e, ast.Name) and e.id in locals_:
                e = locals_[e.id]
            if i >= len(ctor_params):
                problems.append(f'extra argument {norm(a)}')
                continue
            attr = attr_of_param.get(ctor_params[i])
            if attr is None:
                continue
            why = _clones_attr(c, e, attr, S, T)
            if why:
                problems.append(f'{attr}: {why}')
        if len(call.args) - 1 != len(ctor_params):
            problems.append(f'{len(call.args) - 1} constructor arguments for {len(ctor_params)} parameters')
        ctx.check(not problems, rid, f'{c.name}.clone', '; '.join(problems) or 'ok', '; '.join(problems), fn.where,
                  note=f'{len(ctor_params)} attributes cloned onto the parameter store')


def _clones_attr(c: ClassInfo, e: ast.AST, attr: str, S: str, T: str, method: str = 'clone') -> str:
    """`e` clones `self.<attr>` (a single child, or a collection through a comprehension)."""
    def is_attr(x: ast.AST) -> bool:
        a = self_attr(x)
        return a is not None and (a == attr or _accessor_target(c, a) == attr)

    def is_call_on(x: ast.AST, recv_ok) -> bool:  # type: ignore[no-untyped-def]
        return isinstance(x, ast.Call) and isinstance(x.func, ast.Attribute) and x.func.attr == method \
            and recv_ok(x.func.value) and [norm(a) for a in x.args][:2] == [S, T]

    if is_call_on(e, is_attr):
        return ''
    inner = e
    if isinstance(inner, ast.Call) and norm(inner.func) in ('tuple', 'list') and len(inner.args) == 1:
        inner = inner.args[0]
    if isinstance(inner, (ast.GeneratorExp, ast.ListComp)) and len(inner.generators) == 1:
        g = inner.generators[0]
        if is_attr(g.iter) and not g.ifs and isinstance(g.target, ast.Name) \
                and is_call_on(inner.elt, lambda r: isinstance(r, ast.Name) and r.id == g.target.id):
            return ''
    return f'`{norm(e)[:90]}` is not {method}({S}, {T}) of self.{attr} (element-wise for collections)'


def rule_hand_reattach(ctx: RuleContext, p: Program, rid: str) -> None:
    for c in hand_tree_classes(p):
        fn = c.attrs.get('_reattach')
        if not isinstance(fn, FuncInfo):
            raise AnalysisError(f'{c.qualname}: no own _reattach()')
        S, T = fn.params[1], fn.params[2]
        problems: list[str] = []
        done: set[str] = set()
        store_ok = False
        for st in stmts_no_doc(fn.node.body):
            if isinstance(st, ast.Assign) and len(st.targets) == 1:
                a = self_attr(st.targets[0])
                if a == '_token_store':
                    store_ok = norm(st.value) == S
                    continue
                if a is not None:
                    why = _clones_attr(c, st.value, a, S, T, method='reattach')
                    if why:
                        problems.append(f'{a}: {why}')
                    else:
                        done.add(a)
                    continue
            problems.append(f'unsupported statement {norm(st)!r}')
        if not store_ok:
            problems.append('_token_store not re-bound to the parameter store')
        missing = [a for a, _ in child_attrs(c) if a not in done]
        if missing:
            problems.append(f'attributes not reattached: {missing}')
        ctx.check(not problems, rid, f'{c.name}._reattach', '; '.join(problems) or 'ok', '; '.join(problems), fn.where,
                  note=f'{len(done)} attributes reattached')


def rule_hand_eq(ctx: RuleContext, p: Program, rid: str) -> None:
    for c in hand_tree_classes(p):
        fn = c.attrs.get('_eq')
        if not isinstance(fn, FuncInfo):
            raise AnalysisError(f'{c.qualname}: no own _eq()')
        other = fn.params[1]
        e = single_return_expr(fn)
        conj: list[ast.AST] = []
        if e is None:
            # guard clauses: `if not A: return False` ... `return B`  ==  A and ... and B
            body = stmts_no_doc(fn.node.body)
            for st in body[:-1]:
                if isinstance(st, ast.If) and not st.orelse and len(st.body) == 1 and isinstance(st.body[0], ast.Return) \
                        and isinstance(st.body[0].value, ast.Constant) and st.body[0].value.value is False:
                    t = st.test
                    conj.append(t.operand if isinstance(t, ast.UnaryOp) and isinstance(t.op, ast.Not) else ast.UnaryOp(op=ast.Not(), operand=t))
                else:
                    raise AnalysisError(f'{c.qualname}._eq: neither a single return nor guard clauses followed by a return')
            if not body or not isinstance(body[-1], ast.Return) or body[-1].value is None:
                raise AnalysisError(f'{c.qualname}._eq: neither a single return nor guard clauses followed by a return')
            e = body[-1].value
        conj += e.values if isinstance(e, ast.BoolOp) and isinstance(e.op, ast.And) else [e]
        compared: set[str] = set()
        inst = False
        problems: list[str] = []
        for x in conj:
            if isinstance(x, ast.Call) and norm(x.func) == 'isinstance' and norm(x.args[0]) == other:
                k = p.resolve_expr(fn.module, x.args[1], None, c)
                inst = isinstance(k, ClassInfo) and (k is c or c in k.mro)
                if not inst:
                    problems.append(f'instance test against {norm(x.args[1])}')
                continue
            if isinstance(x, ast.Compare) and len(x.ops) == 1 and isinstance(x.ops[0], ast.Eq):
                lf, rf = self_attr(x.left), self_attr(x.comparators[0], other)
                if lf is not None and lf == rf:
                    compared.add(lf)
                    continue
            problems.append(f'unrecognised conjunct {norm(x)!r}')
        if not inst:
            problems.append('no isinstance(other, <own class>)')
        # the placeholder of Repeated is a zero-width token whose text is covered by the token comparison;
        # structure-bearing attributes are the collections of children
        need = [a for a, _ in child_attrs(c) if not a.lstrip('_').startswith('placeholder')]
        missing = [a for a in need if a not in compared]
        if missing:
            problems.append(f'attributes not compared: {missing}')
        ctx.check(not problems, rid, f'{c.name}._eq', '; '.join(problems) or 'ok', '; '.join(problems), fn.where,
                  note=f'compares {sorted(compared)}')
